/-
Spec.MbiRom - an INDEPENDENT acceptance function for Master Boot Images, written from the format description
(what the boot ROM reads and checks), NOT from the builder's code and with its own constants (nothing here is
generated from /repo; `Properties/C02.lean` proves `spec_consts_agree` against the generated constants).

The ROM side knows: the device (which certificate-block generation it supports, whether load-to-RAM images carry an
HMAC-protected header, the manifest flavour, the TrustZone preset size), the fused root-key-table hash `rkth` and the
user / master key.  Everything symmetric (CRC-32/MPEG-2, SHA-2, HMAC-SHA256, AES-ECB key derivation, AES-CTR) and every
length / offset / table check is decided here; the asymmetric checks (X.509 chain of a v1 block, RSA / ECDSA signature
verification) are returned as explicit `Obligation`s: the theorems discharge them through `CryptoOps.verify`, the
harness through `cryptography` (never through spsdk.crypto).

No Mathlib (the native driver links this file).
-/
import SpsdkVerif.Crypto.Iface
import SpsdkVerif.Crypto.Modes
import SpsdkVerif.Crypto.Crc

namespace SpsdkVerif.Spec.MbiRom
open SpsdkVerif SpsdkVerif.Misc SpsdkVerif.Crypto

abbrev Bytes := SpsdkVerif.Misc.Bytes

/-! ## format constants (transcribed from the format description) -/

def offTotalLength : Nat := 0x20
def offFlags : Nat := 0x24
def offCrcOrCert : Nat := 0x28
def offLoadAddress : Nat := 0x34
def ivtSize : Nat := 0x38

def maskImageType : Nat := 0x3F
def shiftSubType : Nat := 6
def maskSubType : Nat := 0x3
def flagImageVersion : Nat := 0x400
def flagRelocTable : Nat := 0x800
def flagHwUserKey : Nat := 0x1000
def shiftTzType : Nat := 13
def maskTzType : Nat := 0x3
def flagKeyStore : Nat := 0x8000
def shiftImageVersion : Nat := 16

def typePlain : Nat := 0
def typeSignedRam : Nat := 1
def typeCrcRam : Nat := 2
def typeEncryptedRam : Nat := 3
def typeSignedXip : Nat := 4
def typeCrcXip : Nat := 5
def typeSignedXipNxp : Nat := 8

def tzEnabled : Nat := 0
def tzCustom : Nat := 1
def tzDisabled : Nat := 2

def hmacOffset : Nat := 64
def hmacSize : Nat := 32
def keyStoreSize : Nat := 1424
def userKeySize : Nat := 32
def encIvtCopySize : Nat := 56
def ivSize : Nat := 16
/-- plaintexts of the AES-ECB key derivations under the user / master key -/
def hmacKeyDerivation : Bytes := List.replicate 16 0
def encKeyDerivation : Bytes := [1] ++ List.replicate 15 0 ++ [2] ++ List.replicate 15 0

/-- certificate block v1 -/
def certV1Magic : Bytes := [0x63, 0x65, 0x72, 0x74]        -- "cert"
def certV1HeaderSize : Nat := 32
def rkhTableEntries : Nat := 4
def rkhSize : Nat := 32
/-- certificate block v2.1 -/
def certV21Magic : Bytes := [0x63, 0x68, 0x64, 0x72]       -- "chdr"
def certV21HeaderSize : Nat := 12
/-- manifest -/
def manifestMagic : Bytes := [0x69, 0x6D, 0x67, 0x6D]      -- "imgm"
def manifestVersion : Nat := 0x10000
def manifestHeaderSize : Nat := 20
def manifestDigestPresent : Nat := 0x80000000
def manifestHashMask : Nat := 0xF

/-- CRC-32/MPEG-2: polynomial 0x04C11DB7, initial value 0xFFFFFFFF, no reflection, no final xor -/
def crcParams : Crc.Params := ⟨32, 0x04C11DB7, 0xFFFFFFFF, 0, false, false⟩

/-! ## helpers -/

def rd32 (b : Bytes) (off : Nat) : Nat := leDec ((b.drop off).take 4)
def rd16 (b : Bytes) (off : Nat) : Nat := leDec ((b.drop off).take 2)
def sub (b : Bytes) (i j : Nat) : Bytes := (b.take j).drop i
def align4 (n : Nat) : Nat := (n + 3) / 4 * 4

/-! ## device / key knowledge of the ROM -/

inductive CertKind where | none | v1 | v21
  deriving Repr, DecidableEq
inductive ManifestKind where | crc | digest
  deriving Repr, DecidableEq

structure RomEnv where
  certKind : CertKind := .none
  manifestKind : ManifestKind := .digest
  /-- load-to-RAM signed images of this device carry HMAC (+ optional key store) behind the 64-byte header -/
  hmacHeader : Bool := false
  /-- XIP images of this device carry 0 in the total-length word -/
  zeroTotalLength : Bool := false
  tzSize : Nat := 0
  /-- the fused root-key-table hash -/
  rkth : Bytes := []
  /-- user key (key store) or master key (OTP) -/
  userKey : Option Bytes := none

/-- an asymmetric check the environment has to perform; offsets refer to `body` (the image without HMAC / key store) -/
inductive Obligation where
  /-- the DER certificates at (offset, length) form a chain: the first is self-signed, each signs the next, all but the
      last are CAs; the SHA-256 of the first one's public key (modulus ‖ exponent) is one of the 4 table entries -/
  | x509Chain (certs : List (Nat × Nat)) (rkhTable : List Bytes)
  /-- RSASSA-PKCS1-v1_5 / SHA-256 by the public key of the certificate at (offset, length) over `body[:dataEnd]`,
      signature `body[dataEnd:]`, whose length is the modulus size -/
  | rsaByCert (cert : Nat × Nat) (dataEnd : Nat)
  /-- ECDSA (hash by curve size) by the raw public key `pub` (X‖Y) over `data`, signature `sig` (r‖s) -/
  | ecdsa (pub data sig : Bytes)
  deriving Repr

structure Accepted where
  /-- bytes removed at offset 64 (HMAC + key store) to get `body` -/
  stripped : Nat := 0
  obligations : List Obligation := []
  /-- byte ranges of the image `[start, end)` that some check depends on (for the coverage statement) -/
  authenticated : List (Nat × Nat) := []
  /-- decrypted application part of an encrypted image -/
  plain : Option Bytes := none
  deriving Repr

abbrev Rom := Except String

def need (b : Bool) (why : String) : Rom Unit := if b then .ok () else .error why

/-! ## CRC images -/

/-- exactly the bytes the CRC covers: the image without the CRC word -/
def crcInput (img : Bytes) : Bytes := img.take offCrcOrCert ++ img.drop (offCrcOrCert + 4)

def romCrc (img : Bytes) : Rom Accepted := do
  need (rd32 img offCrcOrCert == Crc.crc crcParams (crcInput img)) "crc mismatch"
  pure { authenticated := [(0, img.length)] }

/-! ## HMAC-protected header of load-to-RAM images -/

/-- check HMAC (+ skip the key store); returns the image without them and whether a key store is present -/
def romHmac (co : CryptoOps) (env : RomEnv) (img : Bytes) : Rom (Bytes × Nat × Bool) := do
  let ks := rd32 img offFlags &&& flagKeyStore != 0
  let strip := hmacSize + (if ks then keyStoreSize else 0)
  need (img.length ≥ hmacOffset + strip) "image too short for HMAC / key store"
  match env.userKey with
  | none => .error "no user key"
  | some k =>
    need (k.length == userKeySize) "user key size"
    let hk := ecbEnc co k hmacKeyDerivation
    need (sub img hmacOffset (hmacOffset + hmacSize) == hmac co .sha256 hk (img.take hmacOffset)) "hmac mismatch"
    pure (img.take hmacOffset ++ img.drop (hmacOffset + strip), strip, ks)

/-! ## certificate block v1 (RSA) -/

/-- walk the certificate table: `n` entries of (length word, DER bytes) starting at `off`; all inside `limit` -/
def certEntries (body : Bytes) : Nat → Nat → Nat → Rom (List (Nat × Nat) × Nat)
  | 0, off, _ => .ok ([], off)
  | n + 1, off, limit => do
    need (off + 4 ≤ limit) "certificate table overruns"
    let len := rd32 body off
    need (len > 0 ∧ off + 4 + len ≤ limit) "certificate overruns the table"
    let (rest, e) ← certEntries body n (off + 4 + len) limit
    pure ((off + 4, len) :: rest, e)

structure CertV1Info where
  certs : List (Nat × Nat)
  table : List Bytes
  imageLength : Nat
  /-- end of the (4-aligned) block -/
  blockEnd : Nat

def romCertV1 (co : CryptoOps) (env : RomEnv) (body : Bytes) (certOff : Nat) : Rom CertV1Info := do
  need (certOff + certV1HeaderSize ≤ body.length) "certificate block header outside the image"
  need (sub body certOff (certOff + 4) == certV1Magic) "certificate block magic"
  need (rd16 body (certOff + 4) == 1 ∧ rd16 body (certOff + 6) == 0) "certificate block version"
  need (rd32 body (certOff + 8) == certV1HeaderSize) "certificate block header length"
  let imageLength := rd32 body (certOff + 20)
  let count := rd32 body (certOff + 24)
  let tableLen := rd32 body (certOff + 28)
  need (1 ≤ count ∧ count ≤ 4) "certificate count"
  let tblStart := certOff + certV1HeaderSize
  let (certs, tblEnd) ← certEntries body count tblStart (tblStart + tableLen)
  need (tblEnd == tblStart + tableLen) "certificate table length"
  let rkhEnd := tblEnd + rkhTableEntries * rkhSize
  need (rkhEnd ≤ body.length) "root key hash table outside the image"
  let tableBytes := sub body tblEnd rkhEnd
  need (co.hash .sha256 tableBytes == env.rkth) "root key table hash does not match the fuses"
  let table := (List.range rkhTableEntries).map (fun i => sub tableBytes (i * rkhSize) ((i + 1) * rkhSize))
  pure ⟨certs, table, imageLength, certOff + align4 (rkhEnd - certOff)⟩

/-- signed image with a v1 block; `body` is the image without HMAC / key store -/
def romSignedV1 (co : CryptoOps) (env : RomEnv) (body : Bytes) (stripped : Nat) : Rom Accepted := do
  let certOff := rd32 body offCrcOrCert
  need (certOff ≥ ivtSize ∧ certOff % 4 == 0) "certificate block offset"
  let ci ← romCertV1 co env body certOff
  -- the block announces the length of everything that is signed: the signature follows
  need (ci.blockEnd ≤ ci.imageLength ∧ ci.imageLength < body.length) "image length of the certificate block"
  match ci.certs.getLast? with
  | none => .error "no certificate"
  | some last =>
    pure { stripped := stripped
           obligations := [.x509Chain ci.certs ci.table, .rsaByCert last ci.imageLength]
           authenticated := [(0, body.length + stripped)] }

/-! ## certificate block v2.1 (ECC) with manifest -/

def coordSizeOfCode (code : Nat) : Option Nat :=
  if code == 1 then some 32 else if code == 2 then some 48 else none
def hashOfCoord (n : Nat) : HashAlg := if n == 32 then .sha256 else .sha384

/-- the certificate block v2.1 at `certOff`: header, root key record, optional ISK certificate.
    Returns the key that signs the image (raw X‖Y), the end of the block and the ISK obligation -/
def romCertV21 (co : CryptoOps) (env : RomEnv) (img : Bytes) (certOff : Nat) : Rom (Bytes × Nat × List Obligation) := do
  need (certOff + certV21HeaderSize + 4 ≤ img.length) "certificate block header outside the image"
  need (sub img certOff (certOff + 4) == certV21Magic) "certificate block magic"
  need (rd16 img (certOff + 4) == 1 ∧ rd16 img (certOff + 6) == 2) "certificate block version"   -- minor 1, major 2
  let blockSize := rd32 img (certOff + 8)
  -- root key record
  let rkr := certOff + certV21HeaderSize
  let flags := rd32 img rkr
  let ca := flags &&& 0x80000000 != 0
  let used := (flags >>> 8) &&& 0xF
  let count := (flags >>> 4) &&& 0xF
  match coordSizeOfCode (flags &&& 0xF) with
  | none => .error "root key curve"
  | some cs =>
    let alg := hashOfCoord cs
    need (1 ≤ count ∧ count ≤ 4 ∧ used < count) "root key count / index"
    let tblLen := if count > 1 then count * alg.size else 0
    let pubOff := rkr + 4 + tblLen
    need (pubOff + 2 * cs ≤ img.length) "root public key outside the image"
    let rootPub := sub img pubOff (pubOff + 2 * cs)
    let rootHash := co.hash alg rootPub
    let tbl := sub img (rkr + 4) (rkr + 4 + tblLen)
    need (count == 1 ∨ sub tbl (used * alg.size) ((used + 1) * alg.size) == rootHash) "root key is not the announced table entry"
    need ((if count == 1 then rootHash else co.hash alg tbl) == env.rkth) "root key table hash does not match the fuses"
    let rkrEnd := pubOff + 2 * cs
    -- optional ISK certificate
    let (signPub, certEnd, obs) ← (
      if ca then (pure (rootPub, rkrEnd, []) : Rom (Bytes × Nat × List Obligation))
      else do
        need (rkrEnd + 12 ≤ img.length) "ISK certificate outside the image"
        let sigOffset := rd32 img rkrEnd
        let iskFlags := rd32 img (rkrEnd + 8)
        match coordSizeOfCode (iskFlags &&& 0xF) with
        | none => .error "ISK curve"
        | some ics =>
          let iskPub := sub img (rkrEnd + 12) (rkrEnd + 12 + 2 * ics)
          need (sigOffset ≥ 12 + 2 * ics) "ISK signature offset"
          need ((iskFlags &&& 0x80000000 != 0) == (sigOffset > 12 + 2 * ics)) "ISK user data flag"
          let sigStart := rkrEnd + sigOffset
          need (sigStart + 2 * cs ≤ img.length) "ISK signature outside the image"
          -- the root key signs the root key record and the ISK certificate up to its signature
          pure (iskPub, sigStart + 2 * cs, [Obligation.ecdsa rootPub (sub img rkr sigStart) (sub img sigStart (sigStart + 2 * cs))]))
    need (certEnd == certOff + blockSize) "certificate block size"
    pure (signPub, certEnd, obs)

/-- signed image with a v2.1 block and a manifest -/
def romSignedV21 (co : CryptoOps) (env : RomEnv) (img : Bytes) : Rom Accepted := do
  let certOff := rd32 img offCrcOrCert
  need (certOff ≥ ivtSize ∧ certOff % 4 == 0) "certificate block offset"
  let (signPub, certEnd, obs) ← romCertV21 co env img certOff
  -- manifest
  need (certEnd + manifestHeaderSize ≤ img.length) "manifest outside the image"
  need (sub img certEnd (certEnd + 4) == manifestMagic) "manifest magic"
  need (rd32 img (certEnd + 4) == manifestVersion) "manifest version"
  let mLen := rd32 img (certEnd + 12)
  let mFlags := rd32 img (certEnd + 16)
  let mEnd := certEnd + mLen
  let extra := mLen - manifestHeaderSize - (if env.manifestKind == .crc then 4 else 0)
  need (mLen ≥ manifestHeaderSize + (if env.manifestKind == .crc then 4 else 0) ∧ mEnd ≤ img.length) "manifest length"
  need (extra == 0 ∨ extra == env.tzSize) "TrustZone data in the manifest"
  let tzType := (rd32 img offFlags >>> shiftTzType) &&& maskTzType
  need ((extra != 0) == (tzType == tzCustom)) "TrustZone type and manifest data"
  need (env.manifestKind != .crc ∨ rd32 img (mEnd - 4) == Crc.crc crcParams (img.take (mEnd - 4))) "manifest crc"
  -- image signature over everything before it, by the ISK (or the root key)
  let sigLen := signPub.length
  need (mEnd + sigLen ≤ img.length) "signature outside the image"
  let digestLen ← (
    if env.manifestKind == .digest ∧ mFlags &&& manifestDigestPresent != 0 then
      match mFlags &&& manifestHashMask with
      | 1 => (do
          need (sub img (mEnd + sigLen) (mEnd + sigLen + 32) == co.hash .sha256 (img.take mEnd)) "manifest digest"
          pure 32 : Rom Nat)
      | 2 => (do
          need (sub img (mEnd + sigLen) (mEnd + sigLen + 48) == co.hash .sha384 (img.take mEnd)) "manifest digest"
          pure 48)
      | 3 => (do
          need (sub img (mEnd + sigLen) (mEnd + sigLen + 64) == co.hash .sha512 (img.take mEnd)) "manifest digest"
          pure 64)
      | _ => .error "manifest digest type"
    else (do
      need (env.manifestKind == .crc ∨ mFlags == 0) "manifest flags"
      pure 0))
  need (mEnd + sigLen + digestLen == img.length) "image length"
  pure { obligations := obs ++ [.ecdsa signPub (img.take mEnd) (sub img mEnd (mEnd + sigLen))]
         authenticated := [(0, img.length)] }

/-! ## encrypted load-to-RAM image -/

def romEncrypted (co : CryptoOps) (env : RomEnv) (body : Bytes) (stripped : Nat) (keyStore : Bool) : Rom Accepted := do
  let certOff := rd32 body offCrcOrCert
  need (certOff ≥ hmacOffset ∧ certOff % 4 == 0) "certificate block offset"
  let ci ← romCertV1 co env body certOff
  let dataOff := ci.blockEnd + encIvtCopySize + ivSize
  need (dataOff ≤ ci.imageLength ∧ ci.imageLength < body.length) "image length of the certificate block"
  match env.userKey, ci.certs.getLast? with
  | some k, some last =>
    let key := if keyStore then k else ecbEnc co k encKeyDerivation
    let iv := sub body (ci.blockEnd + encIvtCopySize) dataOff
    -- ciphertext in its original order: encrypted IVT copy, rest of the application, TrustZone data
    let cipher := sub body ci.blockEnd (ci.blockEnd + encIvtCopySize) ++ sub body encIvtCopySize certOff
                    ++ sub body dataOff ci.imageLength
    let plain := ctrXor co key iv cipher
    -- the decrypted IVT carries the same words as the clear header
    need (rd32 plain offFlags == rd32 body offFlags ∧ rd32 plain offTotalLength == rd32 body offTotalLength
          ∧ rd32 plain offCrcOrCert == certOff ∧ rd32 plain offLoadAddress == rd32 body offLoadAddress)
      "decrypted IVT differs from the clear header"
    pure { stripped := stripped
           obligations := [.x509Chain ci.certs ci.table, .rsaByCert last ci.imageLength]
           authenticated := [(0, body.length + stripped)]
           plain := some plain }
  | _, _ => .error "no user key / certificate"

/-! ## the acceptance function -/

def romCheck (co : CryptoOps) (env : RomEnv) (img : Bytes) : Rom Accepted := do
  need (img.length ≥ ivtSize) "no IVT"
  let flags := rd32 img offFlags
  let t := flags &&& maskImageType
  let total := rd32 img offTotalLength
  need (if env.zeroTotalLength then total == 0 else total == img.length) "total length word"
  let tz := (flags >>> shiftTzType) &&& maskTzType
  need (tz == tzEnabled ∨ tz == tzCustom ∨ tz == tzDisabled) "TrustZone type"
  if t == typePlain then
    need (rd32 img offCrcOrCert == 0) "plain image with a CRC / certificate word"
    pure {}
  else if t == typeCrcRam ∨ t == typeCrcXip then romCrc img
  else if t == typeSignedRam ∨ t == typeSignedXip ∨ t == typeSignedXipNxp then
    match env.certKind with
    | .v21 => romSignedV21 co env img
    | .v1 =>
      if env.hmacHeader then do
        let (body, strip, _) ← romHmac co env img
        romSignedV1 co env body strip
      else romSignedV1 co env img 0
    | .none => .error "device without certificate blocks"
  else if t == typeEncryptedRam then do
    need (env.certKind == .v1) "device without certificate block v1"
    let (body, strip, ks) ← romHmac co env img
    romEncrypted co env body strip ks
  else .error "unknown image type"

end SpsdkVerif.Spec.MbiRom
