/-
C13 — HARDWARE / ROM side of flash encryption (OTFAD, IEE, BEE), written from the engine descriptions in the source comments
with HAND-WRITTEN constants (documented hardware values).  This file imports only Crypto/* (and Model/Misc for the integer
codecs): nothing here depends on Generated/ or on the model of the code, so no change to /repo can alter what these
definitions compute — the harness' hardware oracle (driver ops otfad_hw, otfad_hwtab, otfad_unwrap, iee_unwrap, iee_hwtab,
bee_hw, bee_unhdr, bee_hwhdr) evaluates only definitions of this file.
Also here: the pure helpers shared with the software model that contain no source constant (8+8 byte swap, group
reversal, KEK scrambling with its literals).
-/
import SpsdkVerif.Crypto.Modes
import SpsdkVerif.Crypto.Crc

namespace SpsdkVerif.FlashEnc
open SpsdkVerif SpsdkVerif.Crypto
open SpsdkVerif.Misc (beEnc beDec leEnc leDec reverseBytesInLongs reverseBits)

/-! ## Literals of the hand model.  In the source these facts are spelled only as arithmetic inside loop bodies
    (`(align >> (i * 2)) & 0x03`, `scrambled[(long_ix * 4) + j]`, `address >> 12`, `base_address >> 4`, `start_addr >> 4`);
    there is no shape-independent way to extract them statically, so they are NOT generated: the correspondence and the
    hardware oracle tie them to the code (a change there gives a concrete failing input). -/
def otfadScrambleSelMask : Nat := 3
def otfadScrambleSelBits : Nat := 2
def otfadScrambleWord : Nat := 4
def ieeTweakShift : Nat := 12
def ieeCtrAddrShift : Nat := 4
def beeCtrAddrShift : Nat := 4

/-- CRC-32/MPEG-2 (poly 0x04C11DB7, init 0xFFFFFFFF, no reflection, no final xor) — the hardware-side constant set -/
def crc32MpegHw (d : Bytes) : Nat := Crc.crc Crc.crc32Mpeg2 d

/-- swap 8 bytes + swap 8 bytes of a 16-byte block (`KeyBlob.encrypt_image(byte_swap=True)`) -/
def swap8 (b : Bytes) : Bytes := (b.take 8).reverse ++ ((b.drop 8).take 8).reverse

/-- `extend_block(data, n)` with zero padding (for data not longer than `n`) -/
def zeroPadTo (n : Nat) (b : Bytes) : Bytes := b ++ zeros (n - b.length)

/-- reverse every group of `n` bytes (`byte_swap_cnt`); `0` = no reversing -/
def revGroups (n : Nat) (b : Bytes) : Bytes :=
  if n = 0 then b else ((chunks n b).map List.reverse).flatten

/-- `long_ix = (key_scramble_align >> (i * 2)) & 0x03` -/
def scrambleIx (align i : Nat) : Nat := (align >>> (i * otfadScrambleSelBits)) &&& otfadScrambleSelMask

/-- the KEK used for key blob `i` when scrambling is enabled: the 32-bit word `long_ix` of the KEK is xored with the
    little-endian bytes of the (optionally bit-reversed) mask -/
def scrambleKek (kek : Bytes) (mask align : Nat) (reversed : Bool) (i : Nat) : Bytes :=
  let m := if reversed then reverseBits mask 32 else mask
  let o := scrambleIx align i * otfadScrambleWord
  kek.take o ++ xorBytes ((kek.drop o).take 4) (leEnc 4 m) ++ kek.drop (o + 4)

/-! ## OTFAD — hardware side -/

/-- context registers as the ROM loads them from one unwrapped key blob -/
structure OtfadCtx where
  key : Bytes        -- CTXn_KEY
  ctr : Bytes        -- CTXn_CTR (8 bytes)
  srtaddr : Nat      -- CTXn_RGD_W0: SRTADDR[31:10]
  endaddr : Nat      -- CTXn_RGD_W1: ENDADDR[31:10], bits 2..0 = RO, ADE, VLD
  deriving Repr, DecidableEq

namespace OtfadCtx
def vld (x : OtfadCtx) : Bool := x.endaddr % 2 == 1
def ade (x : OtfadCtx) : Bool := x.endaddr / 2 % 2 == 1
/-- the access hits the context: valid and address bits [31:10] inside [SRTADDR, ENDADDR] -/
def hit (x : OtfadCtx) (a : Nat) : Bool := x.vld && x.srtaddr / 1024 ≤ a / 1024 && a / 1024 ≤ x.endaddr / 1024
/-- `{CTR_W0, CTR_W1, CTR_W0 ^ CTR_W1, systemAddress[31:4], 0000b}` -/
def counter (x : OtfadCtx) (a : Nat) : Bytes :=
  x.ctr.take 4 ++ (x.ctr.drop 4).take 4 ++ xorBytes (x.ctr.take 4) ((x.ctr.drop 4).take 4) ++ beEnc 4 (a / 16 * 16)
end OtfadCtx

/-- what the core reads for the 16-byte flash block `blk` stored at absolute address `a` -/
def otfadHw (c : CryptoOps) (ctxs : List OtfadCtx) (swap : Bool) (a : Nat) (blk : Bytes) : Bytes :=
  match ctxs.find? (fun x => x.hit a) with
  | none => blk
  | some x =>
    if x.ade then
      let d := if swap then swap8 blk else blk
      let p := xorBytes d (c.encBlk x.key (x.counter a))
      if swap then swap8 p else p
    else blk

/-- read `n` consecutive 16-byte blocks of flash content `ct` starting at address `a` -/
def otfadHwRead (c : CryptoOps) (ctxs : List OtfadCtx) (swap : Bool) : Nat → Nat → Bytes → Bytes
  | 0, _, _ => []
  | n + 1, a, ct => otfadHw c ctxs swap a (ct.take 16) ++ otfadHwRead c ctxs swap n (a + 16) (ct.drop 16)

/-- the whole flash content `ct` located at `base` as seen through the engine -/
def otfadHwReadAll (c : CryptoOps) (ctxs : List OtfadCtx) (swap : Bool) (base : Nat) (ct : Bytes) : Bytes :=
  otfadHwRead c ctxs swap (blocksFor ct.length) base ct

/-- the ROM's view of one 64-byte table entry: undo the byte reversal, RFC 3394 unwrap with the (scrambled) KEK,
    split into the context registers; second component = "stored CRC equals CRC-32/MPEG-2 of the first 32 bytes" -/
def otfadUnwrapEntry (c : CryptoOps) (kek : Bytes) (swapCnt : Nat) (entry : Bytes) : Option (OtfadCtx × Bool) :=
  match kwUnwrap c kek (revGroups swapCnt (entry.take 48)) with
  | none => none
  | some p =>
    some (⟨p.take 16, (p.drop 16).take 8, leDec ((p.drop 24).take 4), leDec ((p.drop 28).take 4)⟩,
          leDec ((p.drop 36).take 4) == crc32MpegHw (p.take 32))

/-- the contexts the ROM derives from a key-blob table (`n` entries of 64 bytes; an entry that does not unwrap is skipped) -/
def otfadUnwrapTable (c : CryptoOps) (kek : Bytes) (scr : Option (Nat × Nat)) (reversed : Bool) (swapCnt : Nat) :
    Nat → Nat → Bytes → List (Option (OtfadCtx × Bool))
  | 0, _, _ => []
  | n + 1, i, t =>
    let k := match scr with
      | some (mask, align) => scrambleKek kek mask align reversed i
      | none => kek
    otfadUnwrapEntry c k swapCnt (t.take 64) :: otfadUnwrapTable c kek scr reversed swapCnt n (i + 1) (t.drop 64)

/-! ## IEE — hardware side -/

/-- region context as the ROM programs it from one plain 96-byte key blob -/
structure IeeCtx where
  keySizeTag : Nat
  modeTag : Nat
  pageOffset : Nat
  key1 : Bytes      -- the 32-byte key1 field
  key2 : Bytes      -- the 32-byte key2 field
  start : Nat
  end_ : Nat
  deriving Repr, DecidableEq

/-- parse one plain key blob (header tag, version, CRC-32/MPEG-2 over the first 92 bytes checked) -/
def ieeParseBlob (p : Bytes) : Option IeeCtx :=
  if p.length < 96 then none
  else if leDec (p.take 4) ≠ 0x49454542 ∨ leDec ((p.drop 4).take 4) ≠ 0x56010000 then none
  else if leDec ((p.drop 92).take 4) ≠ crc32MpegHw (p.take 92) then none
  else some ⟨(p.getD 9 0).toNat, (p.getD 10 0).toNat, leDec ((p.drop 12).take 4), (p.drop 16).take 32, (p.drop 48).take 32,
             leDec ((p.drop 80).take 4), leDec ((p.drop 84).take 4)⟩

namespace IeeCtx
def keyLen (x : IeeCtx) : Nat := if x.keySizeTag = 0x5A then 16 else 32
/-- the region holds the page at address `a` (end address exclusive, as in the SPSDK configuration files) -/
def hit (x : IeeCtx) (a : Nat) : Bool := x.start ≤ a && a < x.end_
/-- key material is stored as 32-bit words; the AES engine takes the bytes of every word in reverse order -/
def word (k : Bytes) : Bytes := match reverseBytesInLongs k with | .ok r => r | .error _ => k
end IeeCtx

/-- AES-CTR with address binding, 16-byte block at absolute address `a`: counter word + (a >> 4) (mod 2^32) -/
def ieeCtrBlock (c : CryptoOps) (x : IeeCtx) (a : Nat) (blk : Bytes) : Bytes :=
  let nonce := IeeCtx.word (x.key2.take 16)
  xorBytes blk (c.encBlk (IeeCtx.word (x.key1.take x.keyLen)) (nonce.take 12 ++ beEnc 4 (beDec (nonce.drop 12) + a / 16)))

def ieeCtrPage (c : CryptoOps) (x : IeeCtx) : Nat → Nat → Bytes → Bytes
  | 0, _, _ => []
  | n + 1, a, d => ieeCtrBlock c x a (d.take 16) ++ ieeCtrPage c x n (a + 16) (d.drop 16)

/-- what the core reads for the (up to 4 KiB of) page content `d` stored at page address `a` -/
def ieeHwPage (c : CryptoOps) (ctxs : List IeeCtx) (a : Nat) (d : Bytes) : Bytes :=
  match ctxs.find? (fun x => x.hit a) with
  | none => d
  | some x =>
    if x.modeTag = 0xA6 then   -- AES-XTS: tweak = page number, little endian
      xtsDec c (IeeCtx.word (x.key1.take x.keyLen)) (IeeCtx.word (x.key2.take x.keyLen)) (leEnc 16 (a / 4096)) d
    else if x.modeTag = 0x66 then ieeCtrPage c x (blocksFor d.length) a d   -- AES-CTR with address binding
    else d                     -- bypass (0x6A); the other CTR variants are not modelled (left as they are)

/-- read flash content `ct` located at the 4 KiB aligned address `a`, page by page (fuel = remaining length) -/
def ieeHwRead (c : CryptoOps) (ctxs : List IeeCtx) : Nat → Nat → Bytes → Bytes
  | 0, _, _ => []
  | f + 1, a, ct =>
    if ct.isEmpty then [] else ieeHwPage c ctxs a (ct.take 4096) ++ ieeHwRead c ctxs f (a + 4096) (ct.drop 4096)

def ieeHwReadAll (c : CryptoOps) (ctxs : List IeeCtx) (base : Nat) (ct : Bytes) : Bytes :=
  ieeHwRead c ctxs ct.length base ct

/-- the ROM's view of the encrypted key-blob area: AES-XTS decrypt with the IBKEKs (tweak = sector of the key-blob
    address), then parse `n` blobs of 96 bytes -/
def ieeParseTable : Nat → Bytes → List (Option IeeCtx)
  | 0, _ => []
  | n + 1, p => ieeParseBlob (p.take 96) :: ieeParseTable n (p.drop 96)

def ieeUnwrapTable (c : CryptoOps) (ibkek1 ibkek2 : Bytes) (kbAddr n : Nat) (enc : Bytes) : List (Option IeeCtx) :=
  ieeParseTable n (xtsDec c (IeeCtx.word ibkek1) (IeeCtx.word ibkek2) (leEnc 16 (kbAddr / 4096)) enc)

/-! ## IEE — extended engine (Phase 3): all five AES modes, the page-offset register, 16-byte granular CTR reads.

ASSUMED engine semantics (the source describes none of this and no data sheet is available in the sandbox; the
assumptions are repeated in the registry note):
* A-PO   `IEE_REGnPO` (the `pageOffset` word of the key blob): the region is selected by the SYSTEM (physical) address
         ("startAddr/endAddr: Physical address of encryption region" in the struct comment), the tweak / counter is formed
         from the LOGICAL address `system address + 4 KiB · pageOffset`.
* A-CTR  in all three CTR modes (with address binding `0x66`, without `0xAA`, keystream only `0x19`) the counter of the
         16-byte block at logical address `L` is `KEY2[127:32] ‖ BE32(KEY2[31:0] + (L >> 4) mod 2^32)`.  SPSDK has ONE CTR
         code path for the three modes; `C13.iee_ctr_engine_only` proves that this is the ONLY counter a CTR-type engine can
         use if it is to read back what SPSDK writes — if the silicon forms another counter in `0xAA` / `0x19`, SPSDK's
         output for these modes is unusable on it, which neither the source nor this check can decide. -/

namespace IeeCtx
/-- A-PO: the address tweak / counter are bound to -/
def logical (x : IeeCtx) (a : Nat) : Nat := a + 4096 * x.pageOffset
/-- A-CTR: the three CTR mode tags -/
def isCtrMode (x : IeeCtx) : Bool := x.modeTag == 0x66 || x.modeTag == 0xAA || x.modeTag == 0x19
end IeeCtx

/-- CTR read of `n` consecutive 16-byte blocks stored from the (16-byte aligned) SYSTEM address `a` on, region context `x` -/
def ieeCtrReadX (c : CryptoOps) (x : IeeCtx) (n a : Nat) (ct : Bytes) : Bytes := ieeCtrPage c x n (x.logical a) ct

/-- what the core reads for the (up to 4 KiB of) page content `d` stored at the system page address `a` -/
def ieeHwPageX (c : CryptoOps) (ctxs : List IeeCtx) (a : Nat) (d : Bytes) : Bytes :=
  match ctxs.find? (fun x => x.hit a) with
  | none => d
  | some x =>
    if x.modeTag = 0xA6 then
      xtsDec c (IeeCtx.word (x.key1.take x.keyLen)) (IeeCtx.word (x.key2.take x.keyLen)) (leEnc 16 (x.logical a / 4096)) d
    else if x.isCtrMode then ieeCtrReadX c x (blocksFor d.length) a d
    else d

/-- page-by-page read with an arbitrary page function (fuel = remaining length) -/
def ieeHwReadWith (page : Nat → Bytes → Bytes) : Nat → Nat → Bytes → Bytes
  | 0, _, _ => []
  | f + 1, a, ct =>
    if ct.isEmpty then [] else page a (ct.take 4096) ++ ieeHwReadWith page f (a + 4096) (ct.drop 4096)

def ieeHwReadAllX (c : CryptoOps) (ctxs : List IeeCtx) (base : Nat) (ct : Bytes) : Bytes :=
  ieeHwReadWith (ieeHwPageX c ctxs) ct.length base ct

/-! ## BEE -/

structure Fac where
  start : Nat
  length : Nat
  deriving Repr, DecidableEq

def Fac.end_ (f : Fac) : Nat := f.start + f.length

/-- one engine: `BeeRegionHeader` = user key + PRDB (AES-CTR counter/nonce, FAC regions) -/
structure BeeEngine where
  key : Bytes
  counter : Bytes
  facs : List Fac
  deriving Repr, DecidableEq

/-! ## BEE — hardware side -/

def Fac.hit (f : Fac) (a : Nat) : Bool := f.start ≤ a && a < f.start + f.length

/-- 16-byte block at absolute address `a`: the first engine with a FAC region holding `a` decrypts with
    counter = nonce[0:12] ‖ BE32(a >> 4) -/
def beeHw (c : CryptoOps) (es : List BeeEngine) (a : Nat) (blk : Bytes) : Bytes :=
  match es.find? (fun e => e.facs.any (fun f => f.hit a)) with
  | none => blk
  | some e => xorBytes blk (c.encBlk e.key (e.counter.take 12 ++ beEnc 4 (a / 16)))

def beeHwRead (c : CryptoOps) (es : List BeeEngine) : Nat → Nat → Bytes → Bytes
  | 0, _, _ => []
  | n + 1, a, ct => beeHw c es a (ct.take 16) ++ beeHwRead c es n (a + 16) (ct.drop 16)

def beeHwReadAll (c : CryptoOps) (es : List BeeEngine) (base : Nat) (ct : Bytes) : Bytes :=
  beeHwRead c es (blocksFor ct.length) base ct


/-- hardware / ROM side: recover the engine configuration from a 0x200-byte region header with the SW key:
    AES-ECB decrypt the KIB, AES-CBC decrypt the PRDB with the KIB key / IV, check the tags and the version,
    read the counter (stored byte-reversed) and the FAC regions (start, end) -/
def beeParseFacs : Nat → Bytes → List Fac
  | 0, _ => []
  | n + 1, b => ⟨leDec (b.take 4), leDec ((b.drop 4).take 4) - leDec (b.take 4)⟩ :: beeParseFacs n (b.drop 32)

def beeHeaderUnwrap (c : CryptoOps) (swKey hdr : Bytes) : Option BeeEngine :=
  let kib := ecbDec c swKey (hdr.take 32)
  let p := cbcDec c (kib.take 16) (kib.drop 16) ((hdr.drop 0x80).take 0x100)
  if hdr.length < 0x200 then none
  else if leDec (p.take 4) ≠ 0x5F474154 ∨ leDec ((p.drop 4).take 4) ≠ 0x52444845 ∨ leDec ((p.drop 8).take 4) ≠ 0x56010000 then none
  else if leDec ((p.drop 24).take 4) ≠ 1 then none           -- AES mode: CTR
  else some ⟨swKey, ((p.drop 32).take 16).reverse, beeParseFacs (leDec ((p.drop 12).take 4)) (p.drop 80)⟩

end SpsdkVerif.FlashEnc
