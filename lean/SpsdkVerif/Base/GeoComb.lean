/-
Combinators the generated geometry part of C16 (Generated/BinImageGeo.lean, written by tools/extract/gen_C16.py) is
expressed in.  Hand-written, independent of /repo.

`floorTrueDiv` / `ceilTrueDiv` stand for Python's `math.floor(a / b)` / `math.ceil(a / b)`: the true division goes
through a float there; these are the exact integer results, which is what Python computes as long as the operands are
below 2^53 (image addresses and sizes are; recorded as an assumption of C16).  `b = 0` (a ZeroDivisionError in Python)
is outside the domain of every theorem that mentions them.
-/
import SpsdkVerif.Base.Py

namespace SpsdkVerif.GeoComb

/-- Python `max(list)`; `none` = `ValueError` on an empty list -/
def maxOf : List Int → Option Int
  | [] => none
  | x :: xs => some (xs.foldl max x)

/-- Python `min(list)` -/
def minOf : List Int → Option Int
  | [] => none
  | x :: xs => some (xs.foldl min x)

def ofOption : Option Int → PyRes Int
  | some v => .ok v
  | none => .error .other

def floorTrueDiv (a b : Int) : Int := Int.fdiv a b
def ceilTrueDiv (a b : Int) : Int := -(Int.fdiv (-a) b)

/-- position of the first element satisfying `p`, else the length -/
def firstIdx {α : Type} (p : α → Bool) : List α → Nat
  | [] => 0
  | x :: xs => if p x then 0 else firstIdx p xs + 1

/-- `list.insert(i, x)` for `i ≤ len` -/
def insertAt {α : Type} (l : List α) (i : Nat) (x : α) : List α := l.take i ++ x :: l.drop i

end SpsdkVerif.GeoComb
