/-
A tiny expression language for straight-line bit manipulation of ONE non-negative integer (`&`, `|`, `^`, shifts by constants,
`~e & mask`), with a VERIFIED equivalence checker on 32-bit inputs.

Purpose (C12, robustness): a generator emits the body of a small Python bit function as a `BExpr` tree; the theorem
"the source function is the specified one" is `bitEquiv32 generated spec = true` (evaluated by `decide`), lifted to
`∀ v < 2^32, eval generated v = eval spec v` by `bitEquiv32_sound`.  The check is SEMANTIC: any rewrite of the source
that computes the same function (`x ^ m` → `~x & m`, `|=` accumulation → one expression, other masks, renamed locals)
produces a different tree that passes the same check, and a change of behaviour fails it.
-/
namespace SpsdkVerif.BitExpr

inductive BExpr where
  | var                                   -- the input
  | lit (n : Nat)
  | and (a b : BExpr)
  | or (a b : BExpr)
  | xor (a b : BExpr)
  | shl (e : BExpr) (k : Nat)
  | shr (e : BExpr) (k : Nat)
  | notMask (e : BExpr) (m : Nat)         -- Python `~e & m` for a non-negative constant `m`  (= `(e & m) ^ m`)
  deriving Repr, DecidableEq

open BExpr

def eval : BExpr → Nat → Nat
  | var, v => v
  | lit n, _ => n
  | .and a b, v => eval a v &&& eval b v
  | .or a b, v => eval a v ||| eval b v
  | .xor a b, v => eval a v ^^^ eval b v
  | shl e k, v => eval e v <<< k
  | shr e k, v => eval e v >>> k
  | notMask e m, v => (eval e v &&& m) ^^^ m

/-- bit `i` of the value, as a function of the input's bits -/
def bit : BExpr → (Nat → Bool) → Nat → Bool
  | var, f, i => f i
  | lit n, _, i => n.testBit i
  | .and a b, f, i => bit a f i && bit b f i
  | .or a b, f, i => bit a f i || bit b f i
  | .xor a b, f, i => bit a f i ^^ bit b f i
  | shl e k, f, i => decide (k ≤ i) && bit e f (i - k)
  | shr e k, f, i => bit e f (k + i)
  | notMask e m, f, i => (bit e f i && m.testBit i) ^^ m.testBit i

theorem testBit_eval (e : BExpr) (v i : Nat) : (eval e v).testBit i = bit e v.testBit i := by
  induction e generalizing i with
  | var => rfl
  | lit n => rfl
  | and a b iha ihb => simp [eval, bit, Nat.testBit_and, iha, ihb]
  | or a b iha ihb => simp [eval, bit, Nat.testBit_or, iha, ihb]
  | xor a b iha ihb => simp [eval, bit, Nat.testBit_xor, iha, ihb]
  | shl e k ih => simp [eval, bit, Nat.testBit_shiftLeft, ih]
  | shr e k ih => simp [eval, bit, Nat.testBit_shiftRight, ih]
  | notMask e m ih => simp [eval, bit, Nat.testBit_and, Nat.testBit_xor, ih]

/-- the input positions bit `i` may depend on -/
def deps : BExpr → Nat → List Nat
  | var, i => [i]
  | lit _, _ => []
  | .and a b, i => deps a i ++ deps b i
  | .or a b, i => deps a i ++ deps b i
  | .xor a b, i => deps a i ++ deps b i
  | shl e k, i => if k ≤ i then deps e (i - k) else []
  | shr e k, i => deps e (k + i)
  | notMask e _, i => deps e i

theorem bit_congr (e : BExpr) (f g : Nat → Bool) (i : Nat) (h : ∀ j ∈ deps e i, f j = g j) : bit e f i = bit e g i := by
  induction e generalizing i with
  | var => exact h i (by simp [deps])
  | lit n => rfl
  | and a b iha ihb =>
    simp only [bit, iha i (fun j hj => h j (by simp [deps, hj])), ihb i (fun j hj => h j (by simp [deps, hj]))]
  | or a b iha ihb =>
    simp only [bit, iha i (fun j hj => h j (by simp [deps, hj])), ihb i (fun j hj => h j (by simp [deps, hj]))]
  | xor a b iha ihb =>
    simp only [bit, iha i (fun j hj => h j (by simp [deps, hj])), ihb i (fun j hj => h j (by simp [deps, hj]))]
  | shl e k ih =>
    simp only [bit]
    by_cases hk : k ≤ i
    · rw [ih (i - k) (fun j hj => h j (by simp [deps, hk, hj]))]
    · simp [hk]
  | shr e k ih => simp only [bit]; exact ih (k + i) (fun j hj => h j (by simp [deps, hj]))
  | notMask e m ih => simp only [bit, ih i (fun j hj => h j (by simp [deps, hj]))]

/-! ### brute force over the assignments of the positions a bit depends on -/

def allBools : Nat → List (List Bool)
  | 0 => [[]]
  | n + 1 => (allBools n).flatMap (fun l => [false :: l, true :: l])

theorem mem_allBools : ∀ (l : List Bool), l ∈ allBools l.length
  | [] => by simp [allBools]
  | b :: l => by
    simp only [List.length_cons, allBools, List.mem_flatMap]
    exact ⟨l, mem_allBools l, by cases b <;> simp⟩

/-- the input that assigns `a` to the positions `D` (first match), `false` elsewhere -/
def assign : List Nat → List Bool → Nat → Bool
  | d :: ds, b :: bs, j => if j = d then b else assign ds bs j
  | _, _, _ => false

theorem assign_map (D : List Nat) (f : Nat → Bool) (j : Nat) (hj : j ∈ D) : assign D (D.map f) j = f j := by
  induction D with
  | nil => simp at hj
  | cons d ds ih =>
    simp only [List.map_cons, assign]
    by_cases h : j = d
    · simp [h]
    · simp only [h, if_false]
      exact ih (by simpa [h] using hj)

def checkBit (e1 e2 : BExpr) (i : Nat) : Bool :=
  let D := deps e1 i ++ deps e2 i
  (allBools D.length).all (fun a => bit e1 (assign D a) i == bit e2 (assign D a) i)

theorem checkBit_sound (e1 e2 : BExpr) (i : Nat) (h : checkBit e1 e2 i = true) (f : Nat → Bool) :
    bit e1 f i = bit e2 f i := by
  simp only [checkBit, List.all_eq_true, beq_iff_eq] at h
  have hm := mem_allBools ((deps e1 i ++ deps e2 i).map f)
  rw [List.length_map] at hm
  have := h _ hm
  rw [bit_congr e1 f (assign (deps e1 i ++ deps e2 i) ((deps e1 i ++ deps e2 i).map f)) i
        (fun j hj => (assign_map _ f j (by simp [hj])).symm),
      bit_congr e2 f (assign (deps e1 i ++ deps e2 i) ((deps e1 i ++ deps e2 i).map f)) i
        (fun j hj => (assign_map _ f j (by simp [hj])).symm)]
  exact this

/-! ### beyond the input's width only the constants matter -/

/-- from this position on, bit `i` does not read any of the input's low `w` bits -/
def bound (w : Nat) : BExpr → Nat
  | var => w
  | lit _ => 0
  | .and a b => max (bound w a) (bound w b)
  | .or a b => max (bound w a) (bound w b)
  | .xor a b => max (bound w a) (bound w b)
  | shl e k => bound w e + k
  | shr e _ => bound w e
  | notMask e _ => bound w e

theorem bit_above (w : Nat) (e : BExpr) (f : Nat → Bool) (hf : ∀ j, w ≤ j → f j = false) (i : Nat) (hi : bound w e ≤ i) :
    bit e f i = bit e (fun _ => false) i := by
  induction e generalizing i with
  | var => simp only [bit]; exact hf i hi
  | lit n => rfl
  | and a b iha ihb =>
    simp only [bound] at hi
    simp only [bit, iha i (by omega), ihb i (by omega)]
  | or a b iha ihb =>
    simp only [bound] at hi
    simp only [bit, iha i (by omega), ihb i (by omega)]
  | xor a b iha ihb =>
    simp only [bound] at hi
    simp only [bit, iha i (by omega), ihb i (by omega)]
  | shl e k ih =>
    simp only [bound] at hi
    simp only [bit, ih (i - k) (by omega)]
  | shr e k ih =>
    simp only [bound] at hi
    simp only [bit, ih (k + i) (by omega)]
  | notMask e m ih =>
    simp only [bound] at hi
    simp only [bit, ih i hi]

/-- equivalence on inputs below `2^w`: every bit below `N = max bound` by brute force over the bits it depends on, and the
    constant parts above `N` compared as numbers -/
def bitEquiv (w : Nat) (e1 e2 : BExpr) : Bool :=
  let N := max (bound w e1) (bound w e2)
  (List.range N).all (checkBit e1 e2) && eval e1 0 >>> N == eval e2 0 >>> N

theorem bitEquiv_sound (w : Nat) (e1 e2 : BExpr) (h : bitEquiv w e1 e2 = true) (v : Nat) (hv : v < 2 ^ w) :
    eval e1 v = eval e2 v := by
  simp only [bitEquiv, Bool.and_eq_true, List.all_eq_true, List.mem_range, beq_iff_eq] at h
  obtain ⟨hlow, hhigh⟩ := h
  apply Nat.eq_of_testBit_eq
  intro i
  rw [testBit_eval, testBit_eval]
  by_cases hi : i < max (bound w e1) (bound w e2)
  · exact checkBit_sound e1 e2 i (hlow i hi) _
  · have hf : ∀ j, w ≤ j → v.testBit j = false := fun j hj =>
      Nat.testBit_lt_two_pow (Nat.lt_of_lt_of_le hv (Nat.pow_le_pow_right (by decide) hj))
    rw [bit_above w e1 _ hf i (by omega), bit_above w e2 _ hf i (by omega)]
    have h0 : ∀ e : BExpr, bit e (fun _ => false) i = (eval e 0).testBit i := by
      intro e
      rw [testBit_eval]
      apply bit_congr
      intro j _
      simp
    rw [h0, h0]
    have hN : i = max (bound w e1) (bound w e2) + (i - max (bound w e1) (bound w e2)) := by omega
    rw [hN, ← Nat.testBit_shiftRight, ← Nat.testBit_shiftRight, hhigh]

abbrev bitEquiv32 := bitEquiv 32

theorem bitEquiv32_sound (e1 e2 : BExpr) (h : bitEquiv32 e1 e2 = true) (v : Nat) (hv : v < 2 ^ 32) :
    eval e1 v = eval e2 v := bitEquiv_sound 32 e1 e2 h v hv

end SpsdkVerif.BitExpr
