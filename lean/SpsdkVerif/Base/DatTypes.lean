/-
Vocabulary of the debug-authentication (DAT) layouts that `tools/extract/gen_C15.py` reads out of
`spsdk/dat/debug_credential.py`, `dac_packet.py`, `dar_packet.py` (→ `Generated/DatConsts.lean`).

A `struct` format such as `"<2HL16s" + f"{key_size}s"` together with the argument list of the `pack(...)`
call becomes a `List (DatFld × DatArg)`: what kind of field is written, and which attribute of the
credential goes into it.  `Model/Dat.lean` *interprets* these lists (`packFields`), so the exported bytes of
the model follow the field order / widths of the current source.
-/
namespace SpsdkVerif

/-- width of an `Ns` field: a literal, or one of the symbolic widths used in the f-strings of the sources -/
inductive DatW where
  | fixed (n : Nat)
  /-- `key_size = {0: 260, 1: 516}[version.minor]` (RSA modulus ‖ 4-byte exponent) -/
  | rsaKey
  /-- `signature_size = {0: 256, 1: 512}[version.minor]` -/
  | rsaSig
  /-- `len(self.rot_meta)` -/
  | lenRotMeta
  /-- `self.rot_pub.coordinate_size * 2` -/
  | rotCoord2
  /-- `self.dck_pub.coordinate_size * 2` -/
  | dckCoord2
  /-- `len(self.export_dck_pub())` -/
  | lenDck
  /-- `len(self.signature)` -/
  | lenSig
  /-- `rot_meta.HASH_SIZE * 2` (ECC parse tail) -/
  | hashSize2
  /-- `len(rot_pub.export())` (EdgeLock parse tail) -/
  | lenRotPub
  /-- `rot_pub.signature_size` (EdgeLock parse tail) -/
  | rotSigSize
  /-- `hash_length` (DAC parse tail) -/
  | hashLength
  /-- an expression the generator does not know: every theorem about the layout fails -/
  | unknown
  deriving DecidableEq, Repr, Inhabited

/-- one `struct` field (all formats in the DAT sources are little endian, `<`) -/
inductive DatFld where
  | u16            -- `H`
  | u32            -- `L`
  | bytes (w : DatW)  -- `Ns`: exactly N bytes, a shorter argument is zero padded, a longer one truncated
  /-- a raw `data += x` concatenation (no `struct` involved, no padding / truncation) -/
  | raw
  | unknown
  deriving DecidableEq, Repr, Inhabited

/-- what is packed / which local variable an unpacked value is bound to -/
inductive DatArg where
  | major | minor | socc | uuid | rotMeta | dck | ccSocu | ccVu | beacon | rotPub | sig
  /-- `_` in an unpack target -/
  | skip
  -- DAC only
  | revocation | rkthHash | socPinned | socDefault | challenge
  -- DAR only
  | dcExport | authBeacon | dacUuid | dacChallenge | signature
  | unknown
  deriving DecidableEq, Repr, Inhabited

/-- AHAB certificate (the EdgeLock-enclave v2 credential): `struct` code of one field of `get_signature_data()` / `export()` / `parse()` -/
inductive CertW where
  | u8 | u16
  | bytes (n : Nat)
  /-- a sub-container appended / parsed as a whole -/
  | raw
  | unknown
  deriving DecidableEq, Repr, Inhabited

/-- what is written at a position of the certificate (pack side) / which attribute of the parsed object receives it (parse side) -/
inductive CertRole where
  | version | length | tag | sigOffset | invPerm | perm | permData | fuse | reserved | uuid | keyRecord | keyData | sig0
  /-- parse side: read and dropped, or only checked -/
  | dropped
  | unknown
  deriving DecidableEq, Repr, Inhabited

/-- One row of the device database restricted to the `dat` feature, after SPSDK's alias / revision
    resolution (`revision = "latest"` rows included). -/
structure DatRow where
  family : String
  revision : String
  socc : Nat
  basedOnEle : Bool
  eleCntVersion : Nat
  sha256Always : Bool
  rotNotPartOfDac : Bool
  rotCouldBeInvalid : Bool
  dacVersionSwapped : Bool
  /-- `features.signing.pss_padding` of the family (false when the feature is absent) -/
  pssPadding : Bool
  deriving DecidableEq, Repr, Inhabited

end SpsdkVerif
