/-
Shared vocabulary for models of Python code.

`PyErr` is the small exception-class enum both the models and the harness map
Python exceptions to (error *messages* are never compared):
  * `spsdk`  – `SPSDKError` or any subclass of it (the documented way to refuse input)
  * `other`  – any other exception class (`ValueError`, `OverflowError`, `AssertionError`, …)
-/
namespace SpsdkVerif

inductive PyErr where
  | spsdk
  | other
  deriving DecidableEq, Repr, Inhabited

abbrev PyRes (α : Type) := Except PyErr α

instance {ε α : Type} [DecidableEq ε] [DecidableEq α] : DecidableEq (Except ε α) := fun a b =>
  match a, b with
  | .ok x, .ok y => if h : x = y then isTrue (by rw [h]) else isFalse (by intro e; cases e; exact h rfl)
  | .error x, .error y => if h : x = y then isTrue (by rw [h]) else isFalse (by intro e; cases e; exact h rfl)
  | .ok _, .error _ => isFalse (by intro e; cases e)
  | .error _, .ok _ => isFalse (by intro e; cases e)

/-- Python floor division `a // b` for `b ≠ 0` (the translator emits a guard for `b = 0`). -/
def pyFloorDiv (a b : Int) : Int := Int.fdiv a b
/-- Python modulo `a % b` for `b ≠ 0`. -/
def pyMod (a b : Int) : Int := Int.fmod a b

/-- Python `x << n`, `x >> n`, `&`, `|`, `^` on integers the translator has
    syntactically established to be used on non-negative operands; on a negative
    operand the model and Python differ and the correspondence sweep reports it. -/
def pyShl (a b : Int) : Int := Int.ofNat (a.toNat <<< b.toNat)
def pyShr (a b : Int) : Int := a >>> b.toNat
def pyAnd (a b : Int) : Int := Int.ofNat (a.toNat &&& b.toNat)
def pyOr  (a b : Int) : Int := Int.ofNat (a.toNat ||| b.toNat)
def pyXor (a b : Int) : Int := Int.ofNat (a.toNat ^^^ b.toNat)

def PyErr.tag : PyErr → String
  | .spsdk => "E:spsdk"
  | .other => "E:other"

end SpsdkVerif
