/-
Record types filled in by `tools/extract/gen_C18.py` (→ `Generated/CacheGuards.lean`) from the AST of
`spsdk/utils/database.py`: what the code around a database-cache load / store *lexically* guarantees.
The action programs of `Model/DbCache.lean` are parameterised by these records.
-/
import SpsdkVerif.Base.PyExc
namespace SpsdkVerif

/-- A function that tries to use an on-disk cache: `exists? → lock → open → pickle.load → checks`. -/
structure LoaderGuards where
  /-- exception classes of the `except` clause of the `try` around the cache load -/
  caught : List Exc
  /-- the load is attempted only under `if os.path.exists(cache)` -/
  existsGuard : Bool
  /-- `open(cache,'rb')` and `pickle.load` are lexically inside `with FileLock(...)` -/
  lockRead : Bool
  /-- the loaded object is type checked (`isinstance`) before it is used -/
  typeChecked : Bool
  /-- class raised by a failing type check (`assert` → AssertionError, `raise X(...)` → X) -/
  typeExc : Exc
  /-- the type check is inside the `try` (so `caught` applies to it) -/
  typeCheckInTry : Bool
  /-- the stored fingerprint (`db_hash`) is compared with the current one before the object is used -/
  fpChecked : Bool
  /-- `os.remove(cache)` on fingerprint mismatch … -/
  removeStale : Bool
  /-- … which happens inside the `try` -/
  removeStaleInTry : Bool
  /-- on mismatch the loaded object is dropped (variable reset, or never read after the `try`) -/
  staleClearsLoaded : Bool
  /-- the `except` handler removes the cache file … -/
  handlerRemoves : Bool
  /-- … only after `if os.path.exists(cache)` (check-then-act outside the lock) -/
  handlerExistsGuard : Bool
  /-- … inside a nested `try/except` (or `contextlib.suppress`) for these classes -/
  handlerRemoveTolerates : List Exc
  /-- after the handler the loaded object is dropped (variable reset, or never read after the `try`) -/
  handlerClearsLoaded : Bool
  deriving DecidableEq, Repr, Inhabited

/-- A function that stores the cache: `lock → [exists? → open → load → merge] → open('wb') → pickle.dump`. -/
structure WriterGuards where
  /-- exception classes of the `except` clause of the `try` around the whole store -/
  caught : List Exc
  /-- every file operation of the store (makedirs, lock, open, load, dump) is inside that `try` -/
  allInTry : Bool
  /-- `open(cache,'wb')` + `pickle.dump` (and the merge read) are inside `with FileLock(...)` -/
  lockWrite : Bool
  /-- written to a temporary file and moved over the cache with `os.replace`/`os.rename` -/
  atomicWrite : Bool
  /-- an existing cache file is loaded inside the same lock and its entries are merged in -/
  mergesExisting : Bool
  /-- the merge read is attempted only under `if os.path.exists(cache)` -/
  mergeExistsGuard : Bool
  /-- the object read for merging is type checked -/
  mergeTypeChecked : Bool
  mergeTypeExc : Exc
  deriving DecidableEq, Repr, Inhabited

/-- One lexical file-operation site on a cache file (for the table obligations). -/
structure CacheSite where
  func : String
  /-- `exists | open_r | open_w | load | dump | remove | makedirs | replace` -/
  op : String
  inLock : Bool
  /-- union of the handler classes of all enclosing `try` bodies inside the function -/
  caught : List Exc
  deriving DecidableEq, Repr, Inhabited

end SpsdkVerif

namespace SpsdkVerif

/-- One cache action in the ordered program listing of a function (phase 2):
    `act` ∈ exists | exists_dir | acquire | release | open_r | open_w | open_tmp | load | dump | replace | remove |
    makedirs | typecheck | fpcompare | merge_compare | merge | clear_loaded | use_loaded | return_loaded | return |
    set_fp | clear_fp | raise …;  `path` = enclosing branch conditions (outermost first: `exists`, `!exists`,
    `match`, `mismatch`, `handler`, `if`, `else`, `differs`, …); `caught` = handler classes of the enclosing `try`
    bodies, innermost first. -/
structure ProgItem where
  act : String
  inLock : Bool
  path : List String
  caught : List (List Exc)
  /-- for `typecheck` / `raise`: the class raised -/
  exc : List Exc := []
  deriving DecidableEq, Repr, Inhabited

end SpsdkVerif

namespace SpsdkVerif

/-- shape of the quick-info fingerprint function (loop over the configured data folders), read from the AST -/
structure QuickHashShape where
  /-- what happens for a folder that is not configured (`None`): "continue" | "break" | "none" (no test at all) -/
  noneAction : String
  /-- any other `break` / `continue` / `return` inside the loop -/
  otherExit : Bool
  hashesDefaults : Bool
  hashesDeviceNames : Bool
  hashesDeviceFiles : Bool
  /-- `os.stat` fields that reach the hash -/
  stampFields : List String
  /-- the list of folders handed over at the call site -/
  callArgs : List String
  deriving DecidableEq, Repr, Inhabited

structure ConfigHashShape where
  /-- parameters hashed as strings -/
  hashedParams : List String
  /-- every cached config file is stamped -/
  hashesCachedFiles : Bool
  stampFields : List String
  earlyExit : Bool
  deriving DecidableEq, Repr, Inhabited

end SpsdkVerif
