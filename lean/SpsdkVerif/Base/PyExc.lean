/-
Python exception classes as an enum with the (fixed) class hierarchy of the built-ins plus the few
library classes that matter for `try … except (A, B, …)` reasoning:  `isSub e c` = `issubclass(e, c)`.

The table is hand-written from the Python 3 language reference; the C18 harness compares *every*
pair of the enum with `issubclass` on the live classes (stream `exception_hierarchy`).
A class that the enum does not know is `other name`; it is taken to be a direct subclass of
`Exception` (conservative for "is it caught": it is caught only by itself, `Exception`, `BaseException`).
-/
namespace SpsdkVerif

inductive Exc where
  | BaseException | Exception | KeyboardInterrupt | SystemExit | GeneratorExit
  | ArithmeticError | OverflowError | ZeroDivisionError | FloatingPointError
  | AssertionError | AttributeError | BufferError | EOFError
  | ImportError | ModuleNotFoundError
  | LookupError | IndexError | KeyError
  | MemoryError | NameError | UnboundLocalError
  | OSError | FileNotFoundError | FileExistsError | PermissionError | IsADirectoryError
  | NotADirectoryError | BlockingIOError | InterruptedError | TimeoutError
  | ReferenceError | RuntimeError | RecursionError | NotImplementedError
  | StopIteration | SyntaxError | SystemError | TypeError
  | ValueError | UnicodeError | UnicodeDecodeError | UnicodeEncodeError
  | PickleError | UnpicklingError | PicklingError      -- pickle
  | LockTimeout                                         -- filelock.Timeout
  | SPSDKError                                          -- spsdk.exceptions.SPSDKError (and subclasses)
  | other (name : String)
  deriving DecidableEq, Repr, Inhabited

namespace Exc

/-- direct base class (`none` for `BaseException`) -/
def parent : Exc → Option Exc
  | BaseException => none
  | Exception | KeyboardInterrupt | SystemExit | GeneratorExit => some BaseException
  | ArithmeticError | AssertionError | AttributeError | BufferError | EOFError | ImportError
  | LookupError | MemoryError | NameError | OSError | ReferenceError | RuntimeError
  | StopIteration | SyntaxError | SystemError | TypeError | ValueError
  | PickleError | SPSDKError | other _ => some Exception
  | OverflowError | ZeroDivisionError | FloatingPointError => some ArithmeticError
  | ModuleNotFoundError => some ImportError
  | IndexError | KeyError => some LookupError
  | UnboundLocalError => some NameError
  | FileNotFoundError | FileExistsError | PermissionError | IsADirectoryError | NotADirectoryError
  | BlockingIOError | InterruptedError | TimeoutError => some OSError
  | RecursionError | NotImplementedError => some RuntimeError
  | UnicodeError => some ValueError
  | UnicodeDecodeError | UnicodeEncodeError => some UnicodeError
  | UnpicklingError | PicklingError => some PickleError
  | LockTimeout => some TimeoutError

/-- `issubclass(e, c)`; the hierarchy is at most 6 deep. -/
def isSubFuel : Nat → Exc → Exc → Bool
  | 0, e, c => e == c
  | n + 1, e, c => e == c || (match parent e with | some p => isSubFuel n p c | none => false)

def isSub (e c : Exc) : Bool := isSubFuel 6 e c

/-- would `except (c₁, c₂, …)` catch an exception of class `e`? -/
def caughtBy (cs : List Exc) (e : Exc) : Bool := cs.any (isSub e)

/-- the Python class name (for the drivers' line protocol) -/
def name : Exc → String
  | other n => n
  | LockTimeout => "Timeout"
  | e => (toString (repr e)).replace "SpsdkVerif.Exc." ""

/-- all named classes of the enum (without `other`) -/
def all : List Exc :=
  [BaseException, Exception, KeyboardInterrupt, SystemExit, GeneratorExit,
   ArithmeticError, OverflowError, ZeroDivisionError, FloatingPointError,
   AssertionError, AttributeError, BufferError, EOFError, ImportError, ModuleNotFoundError,
   LookupError, IndexError, KeyError, MemoryError, NameError, UnboundLocalError,
   OSError, FileNotFoundError, FileExistsError, PermissionError, IsADirectoryError,
   NotADirectoryError, BlockingIOError, InterruptedError, TimeoutError,
   ReferenceError, RuntimeError, RecursionError, NotImplementedError,
   StopIteration, SyntaxError, SystemError, TypeError,
   ValueError, UnicodeError, UnicodeDecodeError, UnicodeEncodeError,
   PickleError, UnpicklingError, PicklingError, LockTimeout, SPSDKError]

def ofName (s : String) : Exc :=
  match all.find? (fun e => e.name == s) with
  | some e => e
  | none => other s

end Exc
end SpsdkVerif
