/-
Python `<<`, `>>`, `**` on unbounded integers as TOTAL functions, for generated integer arithmetic whose shift counts are
widths / offsets / bit positions (non-negative by construction; a negative count raises ValueError in Python and is
outside every theorem, which quantify over natural-number arguments).  `& | ^` are `intAnd/intOr/intXor` of Base/PyInt.lean,
`~` is `Int.not`.  No Mathlib (models and generated parts link into native drivers).
-/
import SpsdkVerif.Base.Py
namespace SpsdkVerif

/-- Python `a << b` for `b ≥ 0` -/
def shlI (a b : Int) : Int := a * 2 ^ b.toNat
/-- Python `a >> b` for `b ≥ 0` (arithmetic shift = floor division by `2^b`) -/
def shrI (a b : Int) : Int := a >>> b.toNat
/-- Python `a ** b` for `b ≥ 0` -/
def powI (a b : Int) : Int := a ^ b.toNat

end SpsdkVerif
