/-
Python `int` operators on unbounded (possibly negative) integers, for models of code that computes
with Python ints (C19: the BD expression evaluator).  No Mathlib here (models link into native drivers);
`Proofs/Bd.lean` shows that `intAnd/intOr/intXor` are the two's-complement bit operations
(`Int.testBit (intAnd a b) i = (a.testBit i && b.testBit i)` …).

Partial operators return `PyRes`: `//`, `%` raise ZeroDivisionError on a zero divisor, `<<`, `>>` raise
ValueError on a negative count (both are `PyErr.other`: not an SPSDK error class).
Left shifts by more than `maxShift` = 2^24 bits are refused (MemoryError/OverflowError territory).
-/
import SpsdkVerif.Base.Py
namespace SpsdkVerif

/-- `m &&& ~~~n` on naturals (bits of `m` that are not in `n`). -/
def natAndNot (m n : Nat) : Nat := m ^^^ (m &&& n)

/-- Python `a & b` (two's complement, infinite sign extension). -/
def intAnd : Int → Int → Int
  | .ofNat m, .ofNat n => Int.ofNat (m &&& n)
  | .ofNat m, .negSucc n => Int.ofNat (natAndNot m n)
  | .negSucc m, .ofNat n => Int.ofNat (natAndNot n m)
  | .negSucc m, .negSucc n => .negSucc (m ||| n)

/-- Python `a | b`. -/
def intOr : Int → Int → Int
  | .ofNat m, .ofNat n => Int.ofNat (m ||| n)
  | .ofNat m, .negSucc n => .negSucc (natAndNot n m)
  | .negSucc m, .ofNat n => .negSucc (natAndNot m n)
  | .negSucc m, .negSucc n => .negSucc (m &&& n)

/-- Python `a ^ b`. -/
def intXor : Int → Int → Int
  | .ofNat m, .ofNat n => Int.ofNat (m ^^^ n)
  | .ofNat m, .negSucc n => .negSucc (m ^^^ n)
  | .negSucc m, .ofNat n => .negSucc (m ^^^ n)
  | .negSucc m, .negSucc n => Int.ofNat (m ^^^ n)

/-- Python `a // b`. -/
def pyDivE (a b : Int) : PyRes Int := if b = 0 then .error .other else .ok (Int.fdiv a b)
/-- Python `a % b`. -/
def pyModE (a b : Int) : PyRes Int := if b = 0 then .error .other else .ok (Int.fmod a b)
/-- largest shift count the models evaluate: beyond it Python needs megabytes to gigabytes for the result and finally raises
    MemoryError / OverflowError; the models refuse it (and the native drivers would abort in `Nat.pow`). -/
def maxShift : Int := 16777216

/-- Python `a << b`. -/
def pyShlE (a b : Int) : PyRes Int :=
  if b < 0 then .error .other else if b > maxShift then .error .other else .ok (a * 2 ^ b.toNat)
/-- Python `a >> b` (arithmetic shift = floor division by 2^b). -/
def pyShrE (a b : Int) : PyRes Int := if b < 0 then .error .other else .ok (a >>> b.toNat)

/-- Python truth value of an int. -/
def pyTruthy (a : Int) : Bool := a != 0
/-- `int(bool)`. -/
def pyBoolInt (b : Bool) : Int := if b then 1 else 0
/-- Python `a and b` on ints (operand-valued). -/
def pyAndI (a b : Int) : Int := if pyTruthy a then b else a
/-- Python `a or b` on ints (operand-valued). -/
def pyOrI (a b : Int) : Int := if pyTruthy a then a else b
/-- Python `not a` as int. -/
def pyNotI (a : Int) : Int := pyBoolInt (!pyTruthy a)

end SpsdkVerif
