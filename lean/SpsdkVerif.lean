-- Root of the `SpsdkVerif` library: property modules are built individually by ./check.
import SpsdkVerif.Base.Py
